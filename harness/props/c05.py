"""C05 - with no covariates the model is uniform swing by the weighted median.

API level: ModelClient with features=[], fixed_effects={} on generated reporting sets (heavy-tailed residuals, integer weights);
the Lean model computes m = wmed exactly and the closed form for every nonreporting unit; predictions are compared as integers
(boundary rule for values within 1e-6 of a rounding tie - the LP solver's tolerance).  Oracle boundary: the recorded solver call
for the median must be (X = column of ones, y = residuals, weights = baseline + 1, tau = 0.5, intercept fitted).
Streams: one or several estimands in one run; the same preprocessed frame object reused across two calls with a changed baseline.
"""
from fractions import Fraction

import numpy as np
import pandas as pd

from harness import common as C
from harness import election as E
from harness import extract as X
from harness.props.c14 import exact_election

PROP = "C05"
MODULES = ["ElexModel.Props.C05"]
DRIVER_TARGETS = ["ElexModel.Driver.Conformal"]
TRUSTED = [
    "the quantile-regression solver is correct (returns a minimiser of the weighted pinball loss): validated by the diff, not proved",
    "rounding ties: predictions whose exact value is within 1e-6 of a half-integer are skipped and counted (solver tolerance)",
]
ASSUMPTIONS = ["weighted median unique: no running weight equals exactly half the total (generator rejects such inputs)"]
RULE = (
    "one-state elections with 6-120 reporting units (heavy-tailed relative changes) and 1-6 nonreporting units incl. partial counts above "
    "the prediction; estimands turnout / dem / gop singly and jointly; non-trivial = at least 3 distinct residuals; distinct = sha1"
)
TIE = Fraction(1, 10**6)


def spec_m(res_w):
    """the property: baseline-weighted median of the relative change (unique case) + detection of the non-unique case"""
    tot = sum(w for _, w in res_w)
    acc = Fraction(0)
    for r, w in sorted(res_w, key=lambda p: p[0]):
        if acc + w > tot / 2:
            below = sum(x for s, x in res_w if s < r)
            return r, (2 * below == tot)
        acc += w
    return None, True


def one_case(run, driver, rng, reuse=False, given=None):
    if given is not None:
        e, estimands = given[0], given[1]
    else:
        n_rep = rng.choice([6, 7, 9, 12, 20, 40, 120])
        e = exact_election(rng, n_rep, n_partial=rng.randint(1, 6))
        # heavy tails + partial counts above the prediction
        for i in e.cur.index:
            if rng.random() < 0.15:
                f = rng.choice([0.2, 3.0, 5.0])
                for c in ("results_dem", "results_gop", "results_turnout"):
                    e.cur.loc[i, c] = int(e.cur.loc[i, c] * f)
        estimands = rng.choice([["turnout"], ["dem"], ["gop"], ["turnout", "dem"], ["dem", "turnout"], ["gop", "dem", "turnout"]])
        shape = rng.random()
        if shape < 0.25:
            # baselines need not be whole numbers (re-districted / apportioned baselines): quarters, exact in binary64
            for c in ("baseline_dem", "baseline_gop", "baseline_turnout"):
                e.pre[c] = e.pre[c].astype(float) + [rng.choice([0, 0.25, 0.5, 0.75]) for _ in range(len(e.pre))]
        elif shape < 0.45:
            # units of very different sizes: two very large units and a handful of tiny ones among the reporting units
            ids = list(e.pre.index[:n_rep])
            rng.shuffle(ids)
            for j, i in enumerate(ids[:2] + ids[2:2 + rng.randint(2, 6)]):
                f = 3000 if j < 2 else None
                for c in ("baseline_dem", "baseline_gop", "baseline_turnout"):
                    old = int(e.pre.loc[i, c])
                    new = old * f if f else rng.randint(0, 5)
                    e.pre.loc[i, c] = new
                    rc = c.replace("baseline_", "results_")
                    k = e.cur.index[e.cur["geographic_unit_fips"] == e.pre.loc[i, "geographic_unit_fips"]]
                    if len(k):
                        e.cur.loc[k[0], rc] = int(round((new + 1) * (int(e.cur.loc[k[0], rc]) + 1) / (old + 1)))
    policy = "drop"
    if given is not None and len(given) > 4:
        policy = given[4]
    elif given is None and not reuse:
        if rng.random() < 0.3 and n_rep >= 9:
            # a caller-supplied blocklist that names reporting and outstanding units (one state: a state blocklist would empty the run)
            ids = list(e.pre["geographic_unit_fips"])
            e.unit_blocklist = rng.sample(ids[:n_rep], 2) + rng.sample(ids[n_rep:], 1)
        if rng.random() < 0.35:
            # units of the baseline that have not appeared in the feed yet; under the zero policy they are outstanding units with no votes
            policy = rng.choice(["zero", "zero", "drop"])
            ids = list(e.pre["geographic_unit_fips"])
            gone = set(rng.sample(ids[max(6, n_rep - 3):], min(2, len(ids) - max(6, n_rep - 3))))
            e.cur = e.cur[~e.cur["geographic_unit_fips"].isin(gone)].reset_index(drop=True)
    tf_lo, tf_hi = (given[2] if given is not None and len(given) > 2 else
                    rng.choice([(0.5, 2.0), (0.5, 2.0), (0.5, 2.0), (0, 2.0), (0.25, 3.0), (0.5, 1.5), (0, 10.0)]))
    outliers = (given[3] if given is not None and len(given) > 3 else
                (not reuse and e.pre.shape[0] >= 24 and rng.random() < 0.5))
    mp = {"fit_margin_outlier_model": False, "fit_turnout_outlier_model": bool(outliers), "turnout_factor_lower": tf_lo,
          "turnout_factor_upper": tf_hi}
    case = {"election": e.describe(), "estimands": estimands, "reuse_frames": reuse, "turnout_factor_limits": [tf_lo, tf_hi],
            "turnout_outlier_model": bool(outliers), "policy": policy}
    calls = []
    C.use_repo()
    flagged_by_rule = []   # what the outlier model must flag, recomputed from its own fit (mean + z * population std of |residual|)
    from elexmodel.handlers.data.CombinedData import CombinedDataHandler as CDH

    orig_outlier = CDH._fit_outlier_detection_model

    def outlier_rec(self_, reporting_units, response_variable, z):
        from elexsolver.QuantileRegressionSolver import QuantileRegressionSolver as Q2

        preds = []
        op = Q2.predict

        def pred_rec(s, x, *a, **kw):
            out = op(s, x, *a, **kw)
            preds.append(np.asarray(out, dtype=float).ravel().copy())
            return out

        Q2.predict = pred_rec
        try:
            got = orig_outlier(self_, reporting_units, response_variable, z)
        finally:
            Q2.predict = op
        if preds:
            y = reporting_units[response_variable].to_numpy(dtype=float)
            ar = np.abs(y - preds[0][: len(y)])
            thr = ar.mean() + z * ar.std()
            near = bool(np.any(np.abs(ar - thr) <= 1e-9 * max(1.0, abs(thr))))
            flagged_by_rule.append({"ids": set(reporting_units["geographic_unit_fips"][ar > thr]), "near": near,
                                    "impl": set(got["geographic_unit_fips"])})
        return got

    C.use_repo()
    from elexsolver.QuantileRegressionSolver import QuantileRegressionSolver as QRS

    orig = QRS.fit

    def rec(self, x, y, *a, **kw):
        calls.append({"x": np.array(x, dtype=float).copy(), "y": np.array(y, dtype=float).copy(),
                      "w": np.array(kw.get("weights"), dtype=float).copy() if kw.get("weights") is not None else None,
                      "taus": kw.get("taus"), "fit_intercept": kw.get("fit_intercept", True)})
        return orig(self, x, y, *a, **kw)

    pre = e.pre.copy()
    QRS.fit = rec
    CDH._fit_outlier_detection_model = outlier_rec
    try:
        if reuse:
            # first call, then the baseline is corrected in place in the caller's frame, second call on the same object
            cl = E.client_mod().ModelClient()
            # ... and ONE feed frame: at the first poll some of the units that report now were a third counted; the raw columns are then
            # updated in place
            feed = e.cur.copy()
            early = [i for i in feed.index if float(feed.loc[i, "percent_expected_vote"]) >= e.threshold][:4]
            for c in ("results_dem", "results_gop", "results_turnout"):
                feed[c] = feed[c].astype(float)
                feed.loc[early, c] = np.floor(feed.loc[early, c] * 0.3)
            feed["percent_expected_vote"] = feed["percent_expected_vote"].astype(float)
            feed.loc[early, "percent_expected_vote"] = 30.0
            with np.errstate(all="ignore"):
                cl.get_estimates(feed, E.ELECTION_ID, e.office, estimands, [0.5], e.threshold, e.unit_type,
                                 raw_config=e.config(), preprocessed_data=pre, save_output=[], pi_method="nonparametric",
                                 aggregates=["postal_code", "unit"], features=[], fixed_effects={},
                                 model_parameters=dict(mp))
            calls.clear()
            for c in ("baseline_dem", "baseline_gop", "baseline_turnout"):
                pre[c] = (pre[c] * 1.5).astype(int) + 7
            e.pre = pre[[c for c in e.pre.columns]].copy()
            for c in e.cur.columns:
                feed[c] = e.cur[c].values
            with np.errstate(all="ignore"):
                tabs = cl.get_estimates(feed, E.ELECTION_ID, e.office, estimands, [0.5], e.threshold, e.unit_type,
                                        raw_config=e.config(), preprocessed_data=pre, save_output=[],
                                        pi_method="nonparametric", aggregates=["postal_code", "unit"], features=[],
                                        fixed_effects={}, model_parameters=dict(mp))
            res = {"tables": tabs}
        else:
            res = E.run_client(e, estimands=estimands, alphas=[0.5], pi_method="nonparametric", features=[], fixed_effects={},
                               params=dict(mp), policy=policy)
    except Exception as ex:
        res = {"raises": type(ex).__name__, "msg": str(ex)[:200]}
    finally:
        QRS.fit = orig
        CDH._fit_outlier_detection_model = orig_outlier
    run.count("reuse frames" if reuse else "fresh frames")
    run.count(f"turnout factor limits {tf_lo}-{tf_hi}")
    run.count("policy " + policy)
    if e.unit_blocklist:
        run.count("unit blocklist given")
    if outliers:
        run.count("turnout outlier model on")
    run.count(f"{len(estimands)} estimand(s)")
    if res.get("raises") == "ModelNotEnoughSubunitsException":
        # heavy-tailed counts can push reporting units outside the turnout-factor limits; too few are then left and the gate of
        # C14 answers - the property is about runs that take place
        run.case(case, False)
        run.count("too few modelled units (gate)")
        return
    if "raises" in res:
        run.case(case, True)
        run.violation("covariate-free run failed: " + res["raises"], input=case, impl=res, predicate="wmed_exists",
                      signature="C05:raise", election=e.to_json())
        return
    ud = res["tables"]["unit_data"].set_index("geographic_unit_fips")
    base = e.pre.set_index("geographic_unit_fips")
    cur = e.cur.set_index("geographic_unit_fips")
    nontrivial = False
    # the modelled reporting units according to the rules (not according to the labels the run puts on them): at or above the
    # threshold, turnout factor strictly inside the limits, not flagged by the enabled outlier model
    rule_rep = set()
    rule_non = set()    # outstanding units the rules predict: below the threshold (or, zero policy, not in the feed yet), not excluded
    blocked = set(e.unit_blocklist)
    for u in base.index:
        if u in blocked or not float(base.loc[u, "baseline_turnout"]):
            continue
        if u not in cur.index:
            if policy == "zero":
                rule_non.add(u)
            continue
        if float(cur.loc[u, "percent_expected_vote"]) < e.threshold:
            rule_non.add(u)
        tfu = Fraction(int(cur.loc[u, "results_turnout"])) / C.frac(float(base.loc[u, "baseline_turnout"])) if float(base.loc[u, "baseline_turnout"]) else None
        if float(cur.loc[u, "percent_expected_vote"]) >= e.threshold and tfu is not None and C.frac(tf_lo) < tfu < C.frac(tf_hi):
            rule_rep.add(u)
    if flagged_by_rule:
        if any(f["near"] for f in flagged_by_rule):
            run.boundary_skipped += 1
            run.case(case, False)
            return
        for f in flagged_by_rule:
            rule_rep -= f["ids"]
    impl_rep = {u for u in ud.index if ud.loc[u, "reporting"] == 1 and ud.loc[u, "unit_category"] == "expected"}
    if impl_rep != rule_rep:
        run.case(case, True)
        run.violation("the units that enter the weighted median are not the modelled reporting units of the rules (threshold, turnout "
                      "factor limits as configured, enabled outlier model)", input=case,
                      impl={"only in the run": sorted(impl_rep - rule_rep)[:5], "only by the rules": sorted(rule_rep - impl_rep)[:5]},
                      predicate="wmed over the modelled reporting units", signature="C05:modelled-set", election=e.to_json())
        return
    impl_non = {u for u in ud.index if ud.loc[u, "reporting"] == 0 and ud.loc[u, "unit_category"] == "expected"}
    if impl_non != rule_non:
        run.case(case, True)
        run.violation("the outstanding units that are predicted are not every baseline unit below the threshold (zero policy: or "
                      "not in the feed yet) that is not excluded", input=case,
                      impl={"only in the run": sorted(impl_non - rule_non)[:5], "only by the rules": sorted(rule_non - impl_non)[:5]},
                      predicate="swing_closed_form (every nonreporting unit)", signature="C05:nonreporting-set", election=e.to_json())
        return
    for k, est in enumerate(estimands):
        rep_ids = [u for u in ud.index if ud.loc[u, "reporting"] == 1 and ud.loc[u, "unit_category"] == "expected"]
        non_ids = [u for u in ud.index if ud.loc[u, "reporting"] == 0 and ud.loc[u, "unit_category"] == "expected"]
        rw = []
        for u in rep_ids:
            b = C.frac(float(base.loc[u, f"baseline_{est}"])) + 1
            r = (Fraction(int(cur.loc[u, f"results_{est}"])) - b) / b
            rw.append((r, b))
        m, tie = spec_m(rw)
        if len({r for r, _ in rw}) >= 3:
            nontrivial = True
        if tie or m is None:
            run.boundary_skipped += 1
            continue
        # oracle boundary: the median fit of this estimand
        med = [c for c in calls if c["taus"] == 0.5]
        if k < len(med):
            c = med[k]
            ok = (c["x"].shape == (len(rep_ids), 1) and np.all(c["x"] == 1) and c["fit_intercept"] in (True,)
                  and c["w"] is not None and len(c["w"]) == len(rw) and float(np.sum(c["w"])) > 0
                  # the weights are the baselines + 1 up to a common factor (normalising them is not a change of the median)
                  and all(abs(a - b) <= 1e-12 for a, b in zip(sorted((c["w"] / np.sum(c["w"])).tolist()),
                                                              sorted(float(w / sum(x for _, x in rw)) for _, w in rw)))
                  and all(C.close(a, b, Fraction(1, 10**12)) for a, b in zip(sorted(c["y"].tolist()), sorted(float(r) for r, _ in rw))))
            if not ok:
                run.violation("the median fit is not the intercept-only regression of the relative change weighted by baseline + 1",
                              input=case, estimand=est, impl={"x_shape": list(c["x"].shape), "taus": c["taus"],
                                                              "intercept": c["fit_intercept"]},
                              predicate="wmed_minimises (solver arguments)", signature="C05:solver-args", election=e.to_json())
                continue
        ops = [{"op": "conf.wmed", "rw": [[C.rat(r), C.rat(w)] for r, w in rw]}]
        for u in non_ids:
            ops.append({"op": "conf.swing", "m": C.rat(m), "b": C.rat(C.frac(float(base.loc[u, f"baseline_{est}"]))),
                        "part": C.rat(int(cur.loc[u, f"results_{est}"]) if u in cur.index else 0)})
        outs = driver.run(ops) if driver else None
        for j, u in enumerate(non_ids):
            got = float(ud.loc[u, f"pred_{est}"])
            b = C.frac(float(base.loc[u, f"baseline_{est}"]))
            part = Fraction(int(cur.loc[u, f"results_{est}"])) if u in cur.index else Fraction(0)
            x = max((1 + m) * (b + 1), part)
            d = abs(x * 2 - round(x * 2))
            if d < TIE * 2 and round(x * 2) % 2 == 1:
                run.boundary_skipped += 1
                continue
            want = C.frac(round(x)) if abs(x - round(x)) != Fraction(1, 2) else None
            if want is not None and C.frac(got) != want:
                run.violation("nonreporting prediction is not (baseline + 1) * (1 + weighted median), rounded, floored at the partial count",
                              input=case, estimand=est, impl={u: got}, expected={"m": float(m), "pred": float(want)},
                              predicate="swing_closed_form / wmed_unique", signature="C05:swing", election=e.to_json())
                break
            if outs is not None:
                if outs[0] is None or C.unrat(outs[0]) != m:
                    run.diff("model wmed vs specification median", input=case, model=outs[0], expected=str(m))
                    break
                if outs[1 + j][0] != int(got):
                    run.diff("prediction vs model swingPred", input=case, estimand=est, unit=u, impl=got, model=outs[1 + j])
                    break
        run.traces += 1
    run.case(case, nontrivial)


def extract(run):
    return X.generate("C05")


def outlier_edge_election(rng):
    """an election in which one reporting unit sits just above the outlier cut-off mean + z * std of the absolute residuals (population
    std): the unit's turnout is tuned by bisection against the real outlier model until it is flagged by a hair. How the spread is
    computed then decides whether it enters the median."""
    C.use_repo()
    from elexmodel.handlers.data.CombinedData import CombinedDataHandler
    from elexmodel.handlers.data.PreprocessedData import PreprocessedDataHandler

    e = exact_election(rng, rng.choice([24, 30, 40]), n_partial=3)
    est = "turnout"

    def gap(e_, uid):
        seen = {}
        orig = CombinedDataHandler._fit_outlier_detection_model

        def rec(self_, reporting_units, response_variable, z):
            from elexsolver.QuantileRegressionSolver import QuantileRegressionSolver as Q2

            preds = []
            op = Q2.predict

            def pred_rec(s, x, *a, **kw):
                out = op(s, x, *a, **kw)
                preds.append(np.asarray(out, dtype=float).ravel().copy())
                return out

            Q2.predict = pred_rec
            try:
                got = orig(self_, reporting_units, response_variable, z)
            finally:
                Q2.predict = op
            y = reporting_units[response_variable].to_numpy(dtype=float)
            ar = np.abs(y - preds[0][: len(y)])
            ids = list(reporting_units["geographic_unit_fips"])
            if uid in ids:
                seen["gap"] = float(ar[ids.index(uid)] - (ar.mean() + z * ar.std()))
                seen["band"] = float(z * (ar.std(ddof=1) - ar.std()))
            return got

        CombinedDataHandler._fit_outlier_detection_model = rec
        try:
            pre = PreprocessedDataHandler(E.ELECTION_ID, e_.office, e_.unit_type, [est], {est: est}, data=e_.pre.copy()).data
            data = CombinedDataHandler(pre, e_.cur.copy(), [est], e_.unit_type, handle_unreporting="drop")
            with np.errstate(all="ignore"):
                data.get_units(e_.threshold, 0.5, 2.0, [], [], False, True, 2.0, ["postal_code"])
        finally:
            CombinedDataHandler._fit_outlier_detection_model = orig
        return seen.get("gap"), seen.get("band")

    uid = e.cur["geographic_unit_fips"].iloc[0]
    i = e.cur.index[e.cur["geographic_unit_fips"] == uid][0]
    b = int(e.pre.loc[e.pre["geographic_unit_fips"] == uid, "baseline_turnout"].iloc[0])
    lo_t, hi_t = b, int(b * 1.95)  # turnout factor stays inside (0.5, 2)
    best = None
    for _ in range(40):
        mid = (lo_t + hi_t) // 2
        e.cur.loc[i, "results_turnout"] = mid
        g, band = gap(e, uid)
        if g is None:
            return None
        if g > 0:
            best = (mid, g, band)
            hi_t = mid
        else:
            lo_t = mid
        if hi_t - lo_t <= 1:
            break
    if best is None or not (1e-6 < best[1] < 0.5 * best[2]):
        return None
    e.cur.loc[i, "results_turnout"] = best[0]
    return e


def explore(run, driver, budget):
    run.info["rule"] = RULE
    n = {"quick": 40, "thorough": 2500, "search": 300}[budget]
    for i in range(n):
        one_case(run, driver, run.rng, reuse=(i % 8 == 7))
    # a unit flagged by the outlier model by a hair (tuned against the real model)
    made = 0
    for _ in range({"quick": 12, "thorough": 300, "search": 60}[budget]):
        e = outlier_edge_election(run.rng)
        if e is None:
            continue
        made += 1
        one_case(run, driver, run.rng, given=(e, ["turnout"], (0.5, 2.0), True))
        if made >= {"quick": 2, "thorough": 40, "search": 8}[budget]:
            break
    run.count("outlier edge cases", made)


def replay(run, driver, payload):
    if payload.get("election") and isinstance(payload.get("input"), dict):
        run.info["rule"] = RULE
        e = E.Election.from_json(payload["election"])
        inp = payload["input"]
        one_case(run, driver, run.rng, reuse=bool(inp.get("reuse_frames")),
                 given=(e, inp["estimands"], tuple(inp.get("turnout_factor_limits", (0.5, 2.0))), bool(inp.get("turnout_outlier_model")),
                        inp.get("policy", "drop")))
        return
    # otherwise the generators are driven by the seed and pass recorded in the replay file (set by main): the same pass is re-run
    explore(run, driver, run.budget)
