import ElexModel.Core.Boot
/-
Aggregation inside `BootstrapElectionModel.get_aggregate_predictions` /
`get_aggregate_prediction_intervals` for one aggregate level: indicator-matrix products are sums over the
units of a group; every quotient goes through `np.nan_to_num` (`divz`).
Groups are natural numbers: the rank of the group's (joined) key in the order `pd.get_dummies` uses.
-/
namespace ElexModel.BootAgg
open ElexModel ElexModel.Boot

/-- reporting unit: group, `baseline_weights`, `results_normalized_margin`, `turnout_factor`, `results_margin` -/
structure Rep where
  g : Nat
  w : Rat
  y : Rat
  z : Rat
  m : Rat
  deriving Repr

/-- unexpected / non-modelled unit: group, `results_margin`, `results_weights` -/
structure Unexp where
  g : Nat
  m : Rat
  t : Rat
  deriving Repr

/-- nonreporting unit: group, `weighted_yz_test_pred`, `weighted_z_test_pred`, and its rows of
    `errors_B_1 … errors_B_4` -/
structure Nonrep where
  g : Nat
  yz : Rat
  zt : Rat
  e1 : List Rat
  e2 : List Rat
  e3 : List Rat
  e4 : List Rat
  deriving Repr

structure Units where
  rep : List Rep
  nonrep : List Nonrep
  unexp : List Unexp
  deriving Repr

def sumOn (g : Nat) (l : List α) (key : α → Nat) (val : α → Rat) : Rat :=
  sumR ((l.filter (fun u => key u == g)).map val)

/-- `aggregate_z_train = indicator_trainᵀ @ (w * z)` -/
def zTrain (U : Units) (g : Nat) : Rat := sumOn g U.rep (·.g) (fun u => u.w * u.z)
/-- `aggregate_yz_train = indicator_trainᵀ @ (w * (y * z))` -/
def yzTrain (U : Units) (g : Nat) : Rat := sumOn g U.rep (·.g) (fun u => u.w * (u.y * u.z))
def zUnexp (U : Units) (g : Nat) : Rat := sumOn g U.unexp (·.g) (·.t)
def yzUnexp (U : Units) (g : Nat) : Rat := sumOn g U.unexp (·.g) (·.m)
def zTest (U : Units) (g : Nat) : Rat := sumOn g U.nonrep (·.g) (·.zt)
def yzTest (U : Units) (g : Nat) : Rat := sumOn g U.nonrep (·.g) (·.yz)

/-- predicted two-party turnout of a group (`aggregate_z_total`) -/
def predTurnout (U : Units) (g : Nat) : Rat := zUnexp U g + zTrain U g + zTest U g

/-- the numerator the base class sums for `get_aggregate_predictions`:
    counted margins of reporting and unexpected units plus unit predictions of nonreporting units -/
def predMarginSum (U : Units) (g : Nat) : Rat :=
  sumOn g U.rep (·.g) (·.m) + yzUnexp U g + yzTest U g

/-- `pred_margin` of `get_aggregate_predictions` before any race-call adjustment -/
def predMarginRaw (U : Units) (g : Nat) : Rat := divz (predMarginSum U g) (predTurnout U g)

/-- the interval method recomputes the prediction of a non-top-level aggregate from `w·y·z` -/
def predMarginRecomputed (U : Units) (g : Nat) : Rat :=
  divz (yzUnexp U g + yzTrain U g + yzTest U g) (predTurnout U g)

def nth (l : List Rat) (b : Nat) : Rat := l.getD b 0

/-- draw `b` of `divided_error_B_1 - divided_error_B_2` for group `g` -/
def errorDiff (U : Units) (g : Nat) (b : Nat) : Rat :=
  let s1 := sumOn g U.nonrep (·.g) (fun u => nth u.e1 b)
  let s2 := sumOn g U.nonrep (·.g) (fun u => nth u.e2 b)
  let s3 := sumOn g U.nonrep (·.g) (fun u => nth u.e3 b)
  let s4 := sumOn g U.nonrep (·.g) (fun u => nth u.e4 b)
  divz (yzTrain U g + s1 + yzUnexp U g) (zTrain U g + s3 + zUnexp U g)
    - divz (yzTrain U g + s2 + yzUnexp U g) (zTrain U g + s4 + zUnexp U g)

def draws (U : Units) (g : Nat) (B : Nat) : List Rat := (List.range B).map (errorDiff U g)

/-- reported prediction of group `g`: adjusted for race calls at the top level -/
def reportedPred (U : Units) (top : Bool) (c : Call) (g : Nat) : Rat :=
  if top then adjustPred c (predMarginRaw U g) else predMarginRaw U g

/-- the centre the interval method uses -/
def intervalCentre (U : Units) (top : Bool) (c : Call) (g : Nat) : Rat :=
  if top then adjustPred c (predMarginRaw U g) else predMarginRecomputed U g

/-- reported interval of group `g` -/
def interval (U : Units) (top : Bool) (c : Call) (stop : Bool) (g : Nat) (alpha : Rat) (B : Nat) : Rat × Rat :=
  aggInterval top c stop (intervalCentre U top c g) (draws U g B) alpha B

end ElexModel.BootAgg
