import ElexModel.Driver.Gauss
def main : IO Unit := ElexModel.Driver.mainWith ElexModel.Driver.Gauss.run
