import ElexModel.Core.Num
/-
pandas as relational algebra (DESIGN §3.2), one value column at a time.

A grouped frame is a key-sorted association list `Table = List (Nat × Rat)`; keys are the ranks of the
real key tuples under the order pandas sorts them in.
* `groupSum rows`  = `df.groupby(key).sum()` — sorted keys, rows with a missing key dropped (`dropna=True`);
* `addTables a b`  = `a.merge(b, how="outer").fillna(0)` followed by the column sum — keys = sorted union;
* `val k t`        = the value at key `k`, `0` if absent.
-/
namespace ElexModel.Table

abbrev Table := List (Nat × Rat)

/-- insert-or-add into a key-sorted table -/
def insertAdd (k : Nat) (v : Rat) : Table → Table
  | [] => [(k, v)]
  | (k', v') :: t =>
    if k < k' then (k, v) :: (k', v') :: t
    else if k = k' then (k', v' + v) :: t
    else (k', v') :: insertAdd k v t

/-- one row of a `groupby(key).sum()`; a row whose key is missing is dropped -/
def gstep (acc : Table) (r : Option Nat × Rat) : Table :=
  match r.1 with
  | some k => insertAdd k r.2 acc
  | none => acc

/-- `groupby(key).sum()` of one column -/
def groupSum (rows : List (Option Nat × Rat)) : Table := rows.foldl gstep []

/-- value at a key (0 when the key is absent: what `fillna(0)` after an outer merge yields) -/
def val (k : Nat) : Table → Rat
  | [] => 0
  | (k', v') :: t => if k = k' then v' else val k t

def hasKey (k : Nat) : Table → Bool
  | [] => false
  | (k', _) :: t => k == k' || hasKey k t

def keys (t : Table) : List Nat := t.map Prod.fst

/-- sorted insert of a key without duplicates -/
def insertKey (k : Nat) : List Nat → List Nat
  | [] => [k]
  | k' :: t => if k < k' then k :: k' :: t else if k = k' then k' :: t else k' :: insertKey k t

/-- keys of an outer merge, in the order `sort_values` leaves them -/
def keysUnion (a b : List Nat) : List Nat := b.foldl (fun acc k => insertKey k acc) (a.foldl (fun acc k => insertKey k acc) [])

/-- outer merge + `fillna(0)` + add -/
def addTables (a b : Table) : Table := (keysUnion (keys a) (keys b)).map (fun k => (k, val k a + val k b))

/-- sum of the column over the rows carrying key `k` -/
def sumAt (k : Nat) : List (Option Nat × Rat) → Rat
  | [] => 0
  | (k', v') :: t => (if k' = some k then v' else 0) + sumAt k t

end ElexModel.Table
