"""API-level bootstrap runs for C06 / C07: ModelClient with race-call / stop lists, and the model object driven with the
frames of the real split (with and without the presidential correction) to range-check the clip stage of compute_bootstrap_errors."""
import math

import numpy as np
import pandas as pd

from harness import common as C
from harness import election as E


def client_runs(run, n, props):
    rng = run.rng
    for k_ in range(n):
        dist = k_ == 3 or (k_ > 3 and rng.random() < 0.35)
        e = E.gen_election(rng, size=rng.choice(["small", "medium"]),
                           roles=["reporting"] * 6 + ["partial"] * 3 + ["zero-percent", "blocklisted", "no-expected-vote"],
                           min_reporting=14, district=dist, many_districts=((rng.random() < 0.7 or k_ == 3) if dist else False), unexpected=not dist)
        tiny = (not dist) and (k_ < 2 or rng.random() < 0.35)   # the first two runs of every pass have tiny counties
        if tiny:
            # county units, some of them tiny and almost fully counted: every county is its own group at county level, half a vote
            # is then more than the width of the interval
            for _try in range(12):
                if e.unit_type == "county":
                    break
                e = E.gen_election(rng, size="small", roles=["reporting"] * 6 + ["partial"] * 3, min_reporting=14, unexpected=False)
            if e.unit_type == "county":
                e.threshold = 100
                ids = list(e.pre["geographic_unit_fips"])
                for u in rng.sample(ids, min(len(ids) // 3, 6)):
                    i, j = e.pre.index[e.pre["geographic_unit_fips"] == u][0], e.cur.index[e.cur["geographic_unit_fips"] == u]
                    if not len(j):
                        continue
                    bd, bg = rng.randint(2, 12), rng.randint(2, 12)
                    e.pre.loc[i, ["baseline_dem", "baseline_gop", "baseline_turnout"]] = [bd, bg, bd + bg + 1]
                    d, g = max(0, bd + rng.randint(-2, 3)), max(0, bg + rng.randint(-2, 3))
                    e.cur.loc[j[0], ["results_dem", "results_gop", "results_turnout", "percent_expected_vote"]] = [d, g, d + g, rng.choice([97, 98, 99])]
                    e.roles[u] = "partial"
        overshoot = (not tiny) and (k_ == 2 or rng.random() < 0.3)
        if overshoot:
            for _try in range(12):
                if e.unit_type == "county" or dist:
                    break
                e = E.gen_election(rng, size="small", roles=["reporting"] * 6 + ["partial"] * 3 + ["zero-percent", "no-expected-vote"],
                                   min_reporting=14, unexpected=True)
            # the expected-vote figure is an estimate and overshoots: a caller that waits for 110 percent; outstanding units past 100
            # percent whose count is lopsided (the partial-reporting bounds are convex combinations only up to 100 percent)
            # (county units: every county is a group of its own at county level)
            old_thr = e.threshold
            e.threshold = 110
            e.cur["percent_expected_vote"] = e.cur["percent_expected_vote"].astype(float)
            part = []
            for j in e.cur.index:
                pv = e.cur.loc[j, "percent_expected_vote"]
                if pv >= old_thr:
                    e.cur.loc[j, "percent_expected_vote"] = rng.choice([110, 112, 125])
                elif e.roles.get(e.cur.loc[j, "geographic_unit_fips"]) == "partial":
                    part.append(j)
            for j in part[:3]:
                t = int(e.cur.loc[j, "results_dem"] + e.cur.loc[j, "results_gop"]) + 40
                lop = rng.choice([0.01, 0.02, 0.98, 0.99])
                d = int(t * lop)
                e.cur.loc[j, ["results_dem", "results_gop", "results_turnout", "percent_expected_vote"]] = [d, t - d, t + 3, rng.choice([104, 106, 108])]
        # partial units anywhere between half and all of the expected vote (the provider's error bound is a setting)
        for j in e.cur.index:
            if e.roles.get(e.cur.loc[j, "geographic_unit_fips"]) == "partial" and rng.random() < 0.4 and e.threshold > 75 and not overshoot:
                e.cur.loc[j, "percent_expected_vote"] = rng.choice([52, 60, 70])
        if dist:
            # the contests of a district election are the (state, district) pairs, named <state>_<district>
            contests = sorted({f"{r['postal_code']}_{r['district']}" for r in e.pre.to_dict(orient="records")})
        else:
            contests = sorted(set(e.states) | set(e.cur["postal_code"]))
        mode = rng.choice(["none", "stop-only", "call-only", "mixed", "mixed", "invalid"])
        lhs = rhs = stop = []
        if mode in ("call-only", "mixed"):
            lhs = [c for c in contests if rng.random() < 0.4]
            rhs = [c for c in contests if c not in lhs and rng.random() < 0.4]
        if mode in ("stop-only", "mixed"):
            stop = [c for c in contests if rng.random() < 0.6] or [contests[0]]
        if mode == "invalid":
            k = rng.choice(["both", "unknown-lhs", "unknown-stop"])
            if k == "both":
                lhs, rhs = [contests[0]], [contests[0]]
            elif k == "unknown-lhs":
                lhs = ["QQ"]
            else:
                stop = ["QQ"]
        alphas = rng.sample([0.5, 0.75, 0.9], 2)
        aggs = rng.choice([["postal_code", "unit"], ["postal_code", "county_fips", "unit"], ["county_fips", "postal_code"]])
        if dist:
            aggs = rng.choice([["district", "unit"], ["district", "county_fips", "unit"], ["postal_code", "district"], ["postal_code", "district", "unit"],
                               ["district", "postal_code"]])
        if dist and k_ == 3:
            aggs = ["postal_code", "district", "unit"]     # both contest-level tables in the first district election of a pass
            if mode in ("none", "invalid"):
                mode, lhs, rhs, stop = "mixed", [contests[0]], [contests[-1]] if len(contests) > 1 else [], [contests[len(contests) // 2]]
        B = rng.choice([4, 8, 16])
        bound = rng.choice([{}, {}, {"percent_expected_vote_error_bound": 0.1}, {"percent_expected_vote_error_bound": 0.6},
                            {"percent_expected_vote_error_bound": 0.75}])
        if (tiny or overshoot) and e.unit_type == "county" and "county_fips" not in aggs:
            aggs = ["postal_code", "county_fips", "unit"]
        case = {"api_boot": True, "election": e.describe(), "lhs": lhs, "rhs": rhs, "stop": stop, "mode": mode, "alphas": alphas,
                "aggregates": aggs, "B": B, "district_election": dist, "tiny_counties": tiny, "settings": bound,
                "expected_vote_overshoots": overshoot}
        extra = {}
        # the client hands the lists on as they come: list, tuple or set
        wrap = rng.choice([list, list, tuple, set])
        case["container"] = wrap.__name__
        if lhs:
            extra["lhs_called_contests"] = wrap(lhs)
        if rhs:
            extra["rhs_called_contests"] = wrap(rhs)
        if stop:
            extra["stop_model_call"] = wrap(stop)
        res = E.run_client(e, estimands=["margin"], alphas=alphas, pi_method="bootstrap", aggregates=aggs,
                           params=E.boot_params(B=B, lambda_=rng.choice([0.5, 2.0]), **bound), features=["baseline_normalized_margin"],
                           extra=extra)
        run.case(case, bool(lhs or rhs or stop))
        run.count("api bootstrap " + mode)
        if mode == "invalid":
            if res.get("raises") == "ModelNotEnoughSubunitsException":
                # the minimum-units gate of the client comes before the model ever sees the call lists: the run is refused for that
                # reason (no table is produced that could contradict a call) - not a case of this clause
                run.count("api bootstrap invalid calls: refused by the minimum-units gate first")
                continue
            if "C07" in props and res.get("raises") != "BootstrapElectionModelException":
                run.violation("contradictory / unknown race calls were not rejected by the estimate run", input=case,
                              impl=res.get("raises", "completed"), predicate="format_error_iff", signature="C07:api-invalid",
                              election=e.to_json())
            continue
        if "raises" in res:
            if res["raises"] != "ModelNotEnoughSubunitsException":
                for p in props:
                    run.violation("bootstrap run failed: " + res["raises"], input=case, impl=res, predicate="agg_straddle",
                                  signature=f"{p}:api-raise", election=e.to_json())
            continue
        t = res["tables"]
        # in a district election the state table carries the district key as well: both are tables of the contests
        contest_tables = [t[n] for n in (("district_data", "state_data") if dist else ("state_data",)) if n in t]
        for r in [r_ for df_ in contest_tables for r_ in df_.to_dict(orient="records")]:
            c = f"{r['postal_code']}_{r['district']}" if dist else r["postal_code"]
            called = "lhs" if c in lhs else "rhs" if c in rhs else "none"
            stopped = c in stop
            pm = r["pred_margin"]
            if "C07" in props:
                if called == "lhs" and pm < 0.005 - 1e-12:
                    run.violation("called left but prediction < +0.005", input=case, impl=r, predicate="called_lhs_pred",
                                  signature="C07:api-lhs-pred", election=e.to_json())
                if called == "rhs" and pm > -0.005 + 1e-12:
                    run.violation("called right but prediction > -0.005", input=case, impl=r, predicate="called_rhs_pred",
                                  signature="C07:api-rhs-pred", election=e.to_json())
                for a in alphas:
                    lo, hi = r[f"lower_{a}_margin"], r[f"upper_{a}_margin"]
                    if called == "lhs" and not stopped and lo < 0:
                        run.violation("called left, not stopped: lower bound negative", input=case, impl=r,
                                      predicate="called_lhs_lower", signature="C07:api-lhs-lower", election=e.to_json())
                    if called == "rhs" and not stopped and hi > 0:
                        run.violation("called right, not stopped: upper bound positive", input=case, impl=r,
                                      predicate="called_rhs_upper", signature="C07:api-rhs-upper", election=e.to_json())
                    if called == "none" and stopped and not (lo <= 0 <= hi):
                        run.violation("stop-listed uncalled contest: the reported interval does not contain zero", input=case,
                                      impl=r, predicate="stopped_uncalled_contains_zero", signature="C07:api-stop",
                                      election=e.to_json())
            if "C06" in props and called == "none" and not stopped:
                for a in alphas:
                    lo, hi = r[f"lower_{a}_margin"], r[f"upper_{a}_margin"]
                    if not (lo < pm < hi):
                        run.violation("uncalled, unstopped contest: not lower < prediction < upper", input=case, impl=r,
                                      predicate="agg_straddle", signature="C06:api-straddle", election=e.to_json())
                if not (-1 - 1e-9 <= pm <= 1 + 1e-9) or r["pred_turnout"] < 0:
                    run.violation("predicted margin outside [-1, 1] or negative turnout", input=case, impl=r,
                                  predicate="margin_bounded", signature="C06:api-margin", election=e.to_json())
        if "C06" in props:
            # in a district election the state table carries the district key as well: both are the contest level
            top_names = ("district_data", "state_data") if dist else ("state_data",)
            for name, df in t.items():
                for r in df.to_dict(orient="records"):
                    if name not in top_names + ("unit_data",):
                        # groups below the top level are never called or stop-listed
                        bad = [a for a in alphas if not (r[f"lower_{a}_margin"] < r["pred_margin"] < r[f"upper_{a}_margin"])]
                        if bad or not (-1 - 1e-9 <= r["pred_margin"] <= 1 + 1e-9) or r["pred_turnout"] < 0:
                            run.violation("a group below the top level: not lower < prediction < upper, or margin outside [-1, 1], or "
                                          "negative turnout", input=case, table=name, impl=r, predicate="agg_straddle / margin_bounded",
                                          signature="C06:api-straddle", election=e.to_json())
                            break
                    if name == "unit_data" and (r.get("pred_turnout") is not None and r["pred_turnout"] < 0):
                        run.violation("a unit's predicted turnout is negative", input=case, table=name, impl=r,
                                      predicate="clip_product_bounded", signature="C06:api-margin", election=e.to_json())
                        break
                    aa = sorted(alphas)
                    for a, b in zip(aa, aa[1:]):
                        ckey = f"{r['postal_code']}_{r.get('district')}" if dist else r["postal_code"]
                        if name not in top_names or (ckey not in list(lhs) + list(rhs) + list(stop)):
                            if r[f"lower_{b}_margin"] > r[f"lower_{a}_margin"] + 1e-9 or r[f"upper_{a}_margin"] > r[f"upper_{b}_margin"] + 1e-9:
                                run.violation("intervals not nested by level", input=case, table=name, impl=r, predicate="agg_nested / unit_nested",
                                              signature="C06:api-nested", election=e.to_json())
                                break
                    for a in alphas:
                        if r[f"lower_{a}_margin"] > r[f"upper_{a}_margin"]:
                            run.violation("lower > upper", input=case, table=name, impl=r, predicate="unit_ordered",
                                          signature="C06:api-ordered", election=e.to_json())
                            break
        run.traces += 1


def model_level_clip(run, n):
    """clip stage of compute_bootstrap_errors: every margin draw within [-1, 1] times the turnout draw, turnout draws >= 0"""
    C.use_repo()
    from elexmodel.handlers.data.CombinedData import CombinedDataHandler
    from elexmodel.handlers.data.PreprocessedData import PreprocessedDataHandler
    from elexmodel.models.BootstrapElectionModel import BootstrapElectionModel

    rng = run.rng
    for i in range(n):
        e = E.gen_election(rng, size="medium", roles=["reporting"] * 6 + ["partial"] * 4, unexpected=False, min_reporting=16)
        pres = i % 2 == 0
        pre = PreprocessedDataHandler(E.ELECTION_ID, e.office, e.unit_type, ["margin"], {"margin": "margin"}, data=e.pre.copy()).data
        cur = e.cur.copy()
        # lopsided partial counts, so that a correction can push a margin beyond +-1
        for j in cur.index:
            if cur.loc[j, "percent_expected_vote"] < e.threshold and rng.random() < 0.7:
                tot = int(cur.loc[j, "results_dem"] + cur.loc[j, "results_gop"])
                cur.loc[j, "results_dem"], cur.loc[j, "results_gop"] = (tot, 0) if rng.random() < 0.5 else (0, tot)
        data = CombinedDataHandler(pre, cur, ["margin"], e.unit_type, handle_unreporting="drop")
        rep, nonrep, unexp = data.get_units(e.threshold, 0.5, 2.0, [], [], False, False, 2.0, ["postal_code"])
        if rep.shape[0] < 12 or nonrep.shape[0] == 0:
            continue
        settings = {"features": ["baseline_normalized_margin"], "B": 12, "lambda_": 1.0, "correct_from_presidential": pres}
        pp = None
        if pres:
            ids = sorted({(u.split("_")[1] if "_" in u else u) for u in nonrep["geographic_unit_fips"]})
            rows = []
            for u in ids:
                w = rng.randint(100, 5000)
                side = rng.choice([-1, 1])
                rows.append({"geographic_unit_fips": u, "pred_margin": side * 0.97 * w * 1.1, "pred_turnout": w * 1.1,
                             "results_margin": -side * 0.5 * w * 0.3, "results_weights": w * 0.3,
                             "baseline_normalized_margin": rng.uniform(-0.5, 0.5)})
            pp = pd.DataFrame(rows)
        case = {"clip_stage": True, "election": e.describe(), "correct_from_presidential": pres}
        model = BootstrapElectionModel(settings, pres_predictions=pp)
        # record what the clip stage is computed from: the unit's clip bounds and the sampled residuals (instance-level wrappers)
        rec = {}
        _gb, _st = model._generate_nonreporting_bounds, model._sample_test_errors

        def gb(units, est, _gb=_gb, rec=rec):
            out = _gb(units, est)
            rec["b_" + est] = (np.asarray(out[0], dtype=float).copy(), np.asarray(out[1], dtype=float).copy())
            return out

        def st(*a, _st=_st, rec=rec, **kw):
            out = _st(*a, **kw)
            rec["res"] = (np.asarray(out[0], dtype=float).copy(), np.asarray(out[1], dtype=float).copy())
            return out

        model._generate_nonreporting_bounds, model._sample_test_errors = gb, st
        try:
            with np.errstate(all="ignore"):
                model.get_unit_predictions(rep, nonrep, "margin", unexpected_units=unexp)
        except Exception as ex:
            run.case(case, True)
            run.violation("compute_bootstrap_errors raised " + type(ex).__name__, input=case, impl=str(ex)[:200],
                          predicate="clip_product_bounded", signature="C06:clip-raise", election=e.to_json())
            continue
        run.case(case, True)
        run.count("clip stage" + (" with presidential correction" if pres else ""))
        tol = 1e-9
        ok = True
        for num, den, what in ((model.errors_B_1, model.errors_B_3, "errors_B_1 / errors_B_3"),
                               (model.errors_B_2, model.errors_B_4, "errors_B_2 / errors_B_4"),
                               (model.weighted_yz_test_pred, model.weighted_z_test_pred, "prediction")):
            num, den = np.asarray(num, dtype=float), np.asarray(den, dtype=float)
            if what != "errors_B_2 / errors_B_4" and np.any(den < -tol):
                run.violation("a turnout draw / prediction is negative (" + what + ")", input=case, impl=float(np.min(den)),
                              predicate="clip_product_bounded", signature="C06:clip-turnout", election=e.to_json())
                ok = False
                break
            if what != "errors_B_2 / errors_B_4" and np.any(np.abs(num) > np.abs(den) * (1 + 1e-9) + tol):
                k = np.unravel_index(np.argmax(np.abs(num) - np.abs(den)), num.shape)
                run.violation("a unit's margin draw / prediction exceeds its turnout in absolute value: normalised margin outside [-1, 1] (" + what + ")",
                              input=case, impl={"margin": float(num[k]), "turnout": float(den[k])}, predicate="clip_product_bounded",
                              signature="C06:clip-margin", election=e.to_json())
                ok = False
                break
        if ok and clip_stage_diff(run, model, rec, nonrep, case, e, rng):
            run.traces += 1


def clip_stage_diff(run, model, rec, nonrep, case, e, rng):
    """the six arrays kept by compute_bootstrap_errors against the definitions regenerated from its source (`Gen.C06.clip_*`, through the
    Lean driver): draws of the 'true' quantities recomputed from the recorded residuals, bounds and means; estimated draws range-checked
    against the unit's own clip bounds"""
    driver = getattr(run, "driver", None)
    if driver is None or not {"b_results_normalized_margin", "b_turnout_factor", "res"} <= set(rec):
        return True
    (yl, yu), (zl, zu), (ry, rz) = rec["b_results_normalized_margin"], rec["b_turnout_factor"], rec["res"]
    w = nonrep["baseline_weights"].to_numpy(dtype=float).reshape(-1, 1)
    wz, wyz = np.asarray(model.weighted_z_test_pred, dtype=float), np.asarray(model.weighted_yz_test_pred, dtype=float)
    e2, e4 = np.asarray(model.errors_B_2, dtype=float), np.asarray(model.errors_B_4, dtype=float)
    e1, e3 = np.asarray(model.errors_B_1, dtype=float), np.asarray(model.errors_B_3, dtype=float)
    n, B = e2.shape
    if not (yl.shape[0] == n == w.shape[0] and ry.shape == e2.shape):
        run.diff("clip stage: shapes of the recorded bounds / residuals and the stored draws differ", input=case,
                 impl=[list(yl.shape), list(ry.shape), list(e2.shape)], model="(n, 1), (n, B), (n, B)")
        return False
    tol = 1e-9
    # the hypotheses of source_clip_draws / ClipUnit.Feasible, on what the real run handed to the clip stage
    if (np.any(yl > yu + tol) or np.any(yl < -1 - tol) or np.any(yu > 1 + tol) or np.any(zl < -tol) or np.any(zl > zu + tol)
            or np.any(w < 0) or not (np.all(np.isfinite(yl)) and np.all(np.isfinite(yu)) and np.all(np.isfinite(zl)) and np.all(np.isfinite(zu)))):
        run.diff("clip stage: the recorded clip bounds / weights do not meet the hypotheses of source_clip_draws (-1 <= yl <= yu <= 1, "
                 "0 <= zl <= zu, w >= 0)", input=case, impl={"yl": [float(yl.min()), float(yl.max())], "yu": [float(yu.min()), float(yu.max())],
                                                        "zl": [float(zl.min()), float(zl.max())], "zu": [float(zu.min()), float(zu.max())],
                                                        "w_min": float(w.min())}, model="feasible", election=e.to_json())
        return False
    run.count("clip stage: hypotheses of source_clip_draws met by the recorded bounds")
    # estimated draws: inside the unit's own bounds (clip_mem)
    with np.errstate(all="ignore"):
        zdraw = np.where(w > 0, e3 / np.where(w > 0, w, 1), np.nan)
        ydraw = np.where(np.abs(e3) > 0, e1 / np.where(np.abs(e3) > 0, e3, 1), np.nan)
    badz = (zdraw < zl - tol) | (zdraw > zu + tol)
    bady = (ydraw < yl - tol) | (ydraw > yu + tol)
    if np.any(badz) or np.any(bady):
        k = np.unravel_index(np.argmax(badz | bady), e2.shape)
        run.diff("clip stage: an estimated draw lies outside the unit's own clip bounds (model: clip_y_draw / clip_z_draw)", input=case,
                 impl={"unit": int(k[0]), "draw": int(k[1]), "y": float(ydraw[k]), "z": float(zdraw[k])},
                 model={"y": [float(yl[k[0], 0]), float(yu[k[0], 0])], "z": [float(zl[k[0], 0]), float(zu[k[0], 0])]}, election=e.to_json())
        return False
    units = [i for i in range(n) if w[i, 0] > 0 and wz[i, 0] != 0]
    import random as _random

    rng = _random.Random(f"clip-{n}-{B}-{getattr(run, 'seed', 0)}")      # own generator: the stream that called us keeps its cases
    rng.shuffle(units)
    ops, idx = [], []
    for i in units[:6]:
        zbar = wz[i, 0] / w[i, 0]
        ybar = wyz[i, 0] / wz[i, 0]
        for b in rng.sample(range(B), min(B, 3)):
            ops.append({"op": "boot.clip", "yBar": C.rat(float(ybar)), "zBar": C.rat(float(zbar)), "ry": C.rat(float(ry[i, b])),
                        "rz": C.rat(float(rz[i, b])), "yl": C.rat(float(yl[i, 0])), "yu": C.rat(float(yu[i, 0])), "zl": C.rat(float(zl[i, 0])),
                        "zu": C.rat(float(zu[i, 0])), "w": C.rat(float(w[i, 0]))})
            idx.append((i, b))
    if not ops:
        return True
    outs = driver.run(ops)
    run.count("clip stage draws recomputed by the regenerated definitions", len(ops))
    for (i, b), o in zip(idx, outs):
        want = [float(C.unrat(x)) for x in o]
        got = [float(e2[i, b]), float(e4[i, b]), float(wyz[i, 0]), float(wz[i, 0])]
        if any(abs(g - m) > 1e-9 * max(1.0, abs(m)) for g, m in zip(got, want)):
            run.diff("clip stage: stored draws (errors_B_2, errors_B_4, weighted_yz_test_pred, weighted_z_test_pred) vs the definitions "
                     "regenerated from compute_bootstrap_errors", input=case, row=[int(i), int(b)], impl=got, model=want, election=e.to_json())
            return False
    return True


def run_checks(run, budget, props):
    n = {"quick": (8, 6), "thorough": (200, 120), "search": (40, 30)}[budget]
    client_runs(run, n[0], props)
    if "C06" in props:
        model_level_clip(run, n[1])
