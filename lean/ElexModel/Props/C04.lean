import ElexModel.Core.Conformal
import ElexModel.Gen.C04
import ElexModel.Lemmas.Num
import ElexModel.Lemmas.Quantile
import Mathlib.Data.List.Perm.Basic
import Mathlib.Tactic.Linarith
import Mathlib.Algebra.Order.Floor.Ring
import Mathlib.Data.Rat.Floor

/-!
# C04 — nonparametric intervals are conformally calibrated

`popCorrection` is the model of `_compute_population_correction`; `correction` adds the `robust` option;
`finalLower/finalUpper` the un-normalisation, floor and rounding.  Quantifiers: every list of (score, weight)
pairs (ties, negative scores, any order), every level.
-/

namespace ElexModel.Conformal
open ElexModel

/-- baseline weight of the calibration units whose score is at most `c` — i.e. whose true value lies inside the
    interval widened by `c` (see `inside_iff_score_le`) -/
def wBelow (c : ℚ) : List (ℚ × ℚ) → ℚ
  | [] => 0
  | (s, w) :: t => (if s ≤ c then w else 0) + wBelow c t

/-- **a calibration unit is inside its widened interval iff its conformity score is at most the correction** -/
theorem inside_iff_score_le (lowerFit upperFit r c : ℚ) :
    (lowerFit - c ≤ r ∧ r ≤ upperFit + c) ↔ score (lowerFit - r) (r - upperFit) ≤ c := by
  unfold score; rw [rmax_eq, max_le_iff]; constructor <;> rintro ⟨a, b⟩ <;> constructor <;> linarith

/-! ### sorting by score -/

theorem insertS_perm (p : ℚ × ℚ) (l : List (ℚ × ℚ)) : (insertS p l).Perm (p :: l) := by
  induction l with
  | nil => simp [insertS]
  | cons q t ih =>
    unfold insertS
    split
    · exact List.Perm.refl _
    · exact (List.Perm.cons q ih).trans (List.Perm.swap p q t)

theorem sortS_perm (l : List (ℚ × ℚ)) : (sortS l).Perm l := by
  unfold sortS
  induction l with
  | nil => simp
  | cons a t ih => simp only [List.foldr_cons]; exact (insertS_perm a _).trans (List.Perm.cons a ih)

theorem insertS_sorted (p : ℚ × ℚ) (l : List (ℚ × ℚ)) (h : l.Pairwise (fun a b => a.1 ≤ b.1)) :
    (insertS p l).Pairwise (fun a b => a.1 ≤ b.1) := by
  induction l with
  | nil => simp [insertS]
  | cons q t ih =>
    have hq := List.pairwise_cons.mp h
    unfold insertS
    split
    · rename_i hlt
      refine List.pairwise_cons.mpr ⟨?_, h⟩
      intro x hx
      rcases List.mem_cons.mp hx with rfl | hx
      · exact le_of_lt hlt
      · exact le_trans (le_of_lt hlt) (hq.1 x hx)
    · rename_i hnlt
      refine List.pairwise_cons.mpr ⟨?_, ih hq.2⟩
      intro x hx
      rcases List.mem_cons.mp ((insertS_perm p t).mem_iff.mp hx) with rfl | hx
      · exact not_lt.mp hnlt
      · exact hq.1 x hx

theorem sortS_sorted (l : List (ℚ × ℚ)) : (sortS l).Pairwise (fun a b => a.1 ≤ b.1) := by
  unfold sortS
  induction l with
  | nil => simp
  | cons a t ih => simp only [List.foldr_cons]; exact insertS_sorted a _ ih

theorem wBelow_perm (c : ℚ) {l₁ l₂ : List (ℚ × ℚ)} (h : l₁.Perm l₂) : wBelow c l₁ = wBelow c l₂ := by
  induction h with
  | nil => rfl
  | cons x _ ih => obtain ⟨s, w⟩ := x; simp only [wBelow, ih]
  | swap x y l => obtain ⟨s, w⟩ := x; obtain ⟨s', w'⟩ := y; simp only [wBelow]; ring
  | trans _ _ ih1 ih2 => rw [ih1, ih2]

theorem wTot_perm {l₁ l₂ : List (ℚ × ℚ)} (h : l₁.Perm l₂) : wTot l₁ = wTot l₂ := by
  induction h with
  | nil => rfl
  | cons x _ ih => obtain ⟨s, w⟩ := x; simp only [wTot, ih]
  | swap x y l => obtain ⟨s, w⟩ := x; obtain ⟨s', w'⟩ := y; simp only [wTot]; ring
  | trans _ _ ih1 ih2 => rw [ih1, ih2]

theorem wBelow_nonneg (c : ℚ) (l : List (ℚ × ℚ)) (hw : ∀ p ∈ l, 0 ≤ p.2) : 0 ≤ wBelow c l := by
  induction l with
  | nil => simp [wBelow]
  | cons p t ih =>
    obtain ⟨s, w⟩ := p
    have h0 : 0 ≤ w := hw (s, w) (List.mem_cons_self ..)
    have := ih (fun p hp => hw p (List.mem_cons_of_mem _ hp))
    simp only [wBelow]; split <;> linarith

theorem wBelow_of_all_gt (c : ℚ) (l : List (ℚ × ℚ)) (h : ∀ p ∈ l, c < p.1) : wBelow c l = 0 := by
  induction l with
  | nil => rfl
  | cons p t ih =>
    obtain ⟨s, w⟩ := p
    have h0 : ¬ s ≤ c := not_le.mpr (h (s, w) (List.mem_cons_self ..))
    simp only [wBelow, if_neg h0, zero_add]
    exact ih (fun p hp => h p (List.mem_cons_of_mem _ hp))

/-! ### the scan over a sorted list -/

theorem scan_mem (thr acc : ℚ) (l : List (ℚ × ℚ)) (c : ℚ) (h : scan thr acc l = some c) : ∃ p ∈ l, p.1 = c := by
  induction l generalizing acc with
  | nil => simp [scan] at h
  | cons p t ih =>
    obtain ⟨s, w⟩ := p
    simp only [scan] at h
    split at h
    · exact ⟨(s, w), List.mem_cons_self .., by simpa using h⟩
    · obtain ⟨p, hp, e⟩ := ih _ h
      exact ⟨p, List.mem_cons_of_mem _ hp, e⟩

theorem scan_calibrated (thr acc : ℚ) (l : List (ℚ × ℚ)) (hs : l.Pairwise (fun a b => a.1 ≤ b.1))
    (hw : ∀ p ∈ l, 0 ≤ p.2) (c : ℚ) (h : scan thr acc l = some c) : thr < acc + wBelow c l := by
  induction l generalizing acc with
  | nil => simp [scan] at h
  | cons p t ih =>
    obtain ⟨s, w⟩ := p
    simp only [scan] at h
    have hwt : ∀ p ∈ t, 0 ≤ p.2 := fun p hp => hw p (List.mem_cons_of_mem _ hp)
    have hst := List.pairwise_cons.mp hs
    split at h
    · rename_i hlt
      have hsc : s = c := by simpa using h
      subst hsc
      have := wBelow_nonneg s t hwt
      simp only [wBelow, le_refl, if_true]; linarith
    · have hc := ih (acc + w) hst.2 hwt h
      obtain ⟨p, hp, e⟩ := scan_mem _ _ _ _ h
      have hsc : s ≤ c := e ▸ hst.1 p hp
      simp only [wBelow, if_pos hsc]; linarith

theorem scan_minimal (thr acc : ℚ) (l : List (ℚ × ℚ)) (hs : l.Pairwise (fun a b => a.1 ≤ b.1))
    (hw : ∀ p ∈ l, 0 ≤ p.2) (c : ℚ) (h : scan thr acc l = some c) (c' : ℚ) (hc' : c' < c) :
    acc + wBelow c' l ≤ thr ∨ thr < acc := by
  induction l generalizing acc with
  | nil => simp [scan] at h
  | cons p t ih =>
    obtain ⟨s, w⟩ := p
    simp only [scan] at h
    have hst := List.pairwise_cons.mp hs
    split at h
    · rename_i hlt
      have hsc : s = c := by simpa using h
      subst hsc
      have hz : wBelow c' ((s, w) :: t) = 0 := by
        apply wBelow_of_all_gt
        intro p hp
        rcases List.mem_cons.mp hp with rfl | hp
        · exact hc'
        · exact lt_of_lt_of_le hc' (hst.1 p hp)
      rw [hz]
      by_cases h0 : thr < acc
      · exact Or.inr h0
      · exact Or.inl (by linarith)
    · rename_i hnlt
      have hw0 : 0 ≤ w := hw (s, w) (List.mem_cons_self ..)
      rcases ih (acc + w) hst.2 (fun p hp => hw p (List.mem_cons_of_mem _ hp)) h with h1 | h1
      · left
        by_cases hsc' : s ≤ c'
        · simp only [wBelow, if_pos hsc']; linarith
        · have ht0 : wBelow c' t = 0 := by
            apply wBelow_of_all_gt
            intro p hp
            exact lt_of_lt_of_le (not_le.mp hsc') (hst.1 p hp)
          simp only [wBelow, if_neg hsc', ht0]; linarith [not_lt.mp hnlt]
      · exact absurd h1 hnlt

theorem scan_exists (thr acc : ℚ) (l : List (ℚ × ℚ)) (h0 : acc ≤ thr) (h : thr < acc + wTot l) :
    ∃ c, scan thr acc l = some c := by
  induction l generalizing acc with
  | nil => simp [wTot] at h; linarith
  | cons p t ih =>
    obtain ⟨s, w⟩ := p
    simp only [scan]
    split
    · exact ⟨s, rfl⟩
    · rename_i hn
      apply ih _ (not_lt.mp hn); simp only [wTot] at h; linarith

theorem wTot_nonneg (l : List (ℚ × ℚ)) (hw : ∀ p ∈ l, 0 ≤ p.2) : 0 ≤ wTot l := by
  induction l with
  | nil => simp [wTot]
  | cons p t ih =>
    obtain ⟨s, w⟩ := p
    have h0 : 0 ≤ w := hw (s, w) (List.mem_cons_self ..)
    have := ih (fun p hp => hw p (List.mem_cons_of_mem _ hp))
    simp only [wTot]; linarith

theorem wBelow_le_wTot (c : ℚ) (l : List (ℚ × ℚ)) (hw : ∀ p ∈ l, 0 ≤ p.2) : wBelow c l ≤ wTot l := by
  induction l with
  | nil => simp [wBelow, wTot]
  | cons p t ih =>
    obtain ⟨s, w⟩ := p
    have h0 : 0 ≤ w := hw (s, w) (List.mem_cons_self ..)
    have := ih (fun p hp => hw p (List.mem_cons_of_mem _ hp))
    simp only [wBelow, wTot]; split <;> linarith

/-! ### the population-weighted correction -/

theorem nonneg_of_perm {l l' : List (ℚ × ℚ)} (h : l'.Perm l) (hw : ∀ p ∈ l, 0 ≤ p.2) : ∀ p ∈ l', 0 ≤ p.2 :=
  fun p hp => hw p (h.mem_iff.mp hp)

/-- **calibration**: the baseline-weighted share of calibration units inside the widened interval exceeds the level -/
theorem pop_calibrated (sw : List (ℚ × ℚ)) (hw : ∀ p ∈ sw, 0 ≤ p.2) (q c : ℚ)
    (h : popCorrection sw q = some c) : q * wTot sw < wBelow c sw := by
  unfold popCorrection at h
  have := scan_calibrated _ 0 (sortS sw) (sortS_sorted sw) (nonneg_of_perm (sortS_perm sw) hw) c h
  rw [wBelow_perm c (sortS_perm sw)] at this
  linarith

/-- **minimality**: no smaller correction reaches that share — the correction is the *smallest* calibrated one -/
theorem pop_minimal (sw : List (ℚ × ℚ)) (hw : ∀ p ∈ sw, 0 ≤ p.2) (q : ℚ) (hq : 0 ≤ q) (c : ℚ)
    (h : popCorrection sw q = some c) (c' : ℚ) (hc' : c' < c) : wBelow c' sw ≤ q * wTot sw := by
  unfold popCorrection at h
  have hnn := nonneg_of_perm (sortS_perm sw) hw
  rcases scan_minimal _ 0 (sortS sw) (sortS_sorted sw) hnn c h c' hc' with h1 | h1
  · rw [wBelow_perm c' (sortS_perm sw)] at h1; linarith
  · exfalso
    have : 0 ≤ wTot sw := wTot_nonneg sw hw
    have : 0 ≤ q * wTot sw := mul_nonneg hq this
    linarith

/-- **existence**: for a level below 1 and positive total weight a correction exists -/
theorem pop_exists (sw : List (ℚ × ℚ)) (q : ℚ) (hq0 : 0 ≤ q) (hq : q < 1) (hpos : 0 < wTot sw) :
    ∃ c, popCorrection sw q = some c := by
  unfold popCorrection
  apply scan_exists
  · exact mul_nonneg hq0 hpos.le
  · rw [wTot_perm (sortS_perm sw)]
    nlinarith

/-- the correction is one of the conformity scores -/
theorem pop_is_score (sw : List (ℚ × ℚ)) (q c : ℚ) (h : popCorrection sw q = some c) : ∃ p ∈ sw, p.1 = c := by
  unfold popCorrection at h
  obtain ⟨p, hp, e⟩ := scan_mem _ _ _ _ h
  exact ⟨p, (sortS_perm sw).mem_iff.mp hp, e⟩

/-- **tie / order invariance**: the correction does not depend on the order of the calibration units, in
    particular not on how a (non-stable) sort orders equal scores -/
theorem pop_perm_invariant (sw sw' : List (ℚ × ℚ)) (hp : sw'.Perm sw) (hw : ∀ p ∈ sw, 0 ≤ p.2) (q : ℚ) (hq : 0 ≤ q) :
    popCorrection sw' q = popCorrection sw q := by
  have hw' := nonneg_of_perm hp hw
  cases h1 : popCorrection sw q with
  | none =>
    cases h2 : popCorrection sw' q with
    | none => rfl
    | some c' =>
      exfalso
      have hc := pop_calibrated sw' hw' q c' h2
      rw [wBelow_perm c' hp, wTot_perm hp] at hc
      -- then a correction exists for sw as well
      unfold popCorrection at h1
      have : q * wTot sw < 0 + wTot (sortS sw) := by
        rw [wTot_perm (sortS_perm sw)]
        have hle := wBelow_le_wTot c' sw hw
        linarith
      obtain ⟨c, hc2⟩ := scan_exists _ 0 _ (mul_nonneg hq (wTot_nonneg sw hw)) this
      rw [hc2] at h1; cases h1
  | some c =>
    have hcal := pop_calibrated sw hw q c h1
    cases h2 : popCorrection sw' q with
    | none =>
      exfalso
      unfold popCorrection at h2
      have hle := wBelow_le_wTot c sw hw
      have : q * wTot sw' < 0 + wTot (sortS sw') := by
        rw [wTot_perm (sortS_perm sw'), wTot_perm hp]; linarith
      obtain ⟨c2, hc2⟩ := scan_exists _ 0 _ (mul_nonneg hq (wTot_nonneg sw' hw')) this
      rw [hc2] at h2; cases h2
    | some c' =>
      have hcal' := pop_calibrated sw' hw' q c' h2
      rw [wBelow_perm c' hp, wTot_perm hp] at hcal'
      rcases lt_trichotomy c' c with hlt | heq | hgt
      · have := pop_minimal sw hw q hq c h1 c' hlt; linarith
      · rw [heq]
      · have := pop_minimal sw' hw' q hq c' h2 c hgt
        rw [wBelow_perm c hp, wTot_perm hp] at this; linarith

/-- **robust option**: the applied correction is at least the weighted correction *and* at least the unweighted
    `q`-quantile of the scores, so both calibration statements hold -/
theorem robust_both (sw : List (ℚ × ℚ)) (q c pc : ℚ) (hp : popCorrection sw q = some pc)
    (h : correction true sw q = some c) : pc ≤ c ∧ npQuantile (sw.map Prod.fst) q ≤ c := by
  unfold correction at h
  rw [hp] at h
  simp only [if_true, Option.some.injEq] at h
  rw [← h, rmax_eq]
  exact ⟨le_max_right _ _, le_max_left _ _⟩

theorem nonrobust_is_pop (sw : List (ℚ × ℚ)) (q : ℚ) : correction false sw q = popCorrection sw q := by
  unfold correction; cases popCorrection sw q <;> simp

/-- a larger correction keeps every calibration unit that was inside, inside (share is monotone) -/
theorem wBelow_mono (sw : List (ℚ × ℚ)) (hw : ∀ p ∈ sw, 0 ≤ p.2) (c c' : ℚ) (h : c ≤ c') :
    wBelow c sw ≤ wBelow c' sw := by
  induction sw with
  | nil => simp [wBelow]
  | cons p t ih =>
    obtain ⟨s, w⟩ := p
    have h0 : 0 ≤ w := hw (s, w) (List.mem_cons_self ..)
    have := ih (fun p hp => hw p (List.mem_cons_of_mem _ hp))
    simp only [wBelow]
    by_cases h1 : s ≤ c
    · have : s ≤ c' := le_trans h1 h
      simp [h1, this]; linarith
    · by_cases h2 : s ≤ c' <;> simp [h1, h2] <;> linarith

/-- hence with `robust` the weighted share still exceeds the level -/
theorem robust_calibrated (sw : List (ℚ × ℚ)) (hw : ∀ p ∈ sw, 0 ≤ p.2) (q c : ℚ)
    (h : correction true sw q = some c) : q * wTot sw < wBelow c sw := by
  cases hp : popCorrection sw q with
  | none => unfold correction at h; rw [hp] at h; cases h
  | some pc =>
    have := robust_both sw q c pc hp h
    exact lt_of_lt_of_le (pop_calibrated sw hw q pc hp) (wBelow_mono sw hw pc c this.1)

/-- **vote-space transfer**: rounding and the floor at the partial count preserve coverage of a whole-number
    true count that is at least the partial count -/
theorem vote_space_transfer (l u c w : ℚ) (part t : ℤ) (hpt : part ≤ t)
    (h1 : (l - c) * w + w ≤ t) (h2 : (t : ℚ) ≤ (u + c) * w + w) :
    finalLower l c w part ≤ t ∧ t ≤ finalUpper u c w part := by
  unfold finalLower finalUpper
  rw [rmax_eq, rmax_eq]
  constructor
  · apply rhe_le_int
    exact max_le h1 (by exact_mod_cast hpt)
  · apply rhe_ge_int
    exact le_trans h2 (le_max_left _ _)

/-! ### non-vacuity: ties, a negative correction, running weight hitting the level exactly -/
example : popCorrection [(1/2, 3), (-1/4, 1), (3/4, 2), (1/2, 2)] (1/2) = some (1/2) := by decide +kernel
example : popCorrection [(-1/8, 4), (-1/4, 4)] (1/2) = some (-1/8) := by decide +kernel   -- share exactly ½ is not enough
example : popCorrection [(-1/8, 4), (-1/4, 4)] (7/16) = some (-1/4) := by decide +kernel
example : correction true [(1, 1), (0, 7)] (1/2) = some (1/2) ∧ correction false [(1, 1), (0, 7)] (1/2) = some 0 := by
  decide +kernel

end ElexModel.Conformal

namespace ElexModel.Conformal
open ElexModel

/-! ### the counting core of split-conformal coverage (equal weights) -/

theorem wTot_unitW (l : List ℚ) : wTot (unitW l) = l.length := by
  induction l with
  | nil => simp [unitW, wTot]
  | cons a t ih =>
    simp only [unitW, List.map_cons, wTot, List.length_cons] at *
    rw [ih]; push_cast; ring

theorem wBelow_unitW (c : ℚ) (l : List ℚ) : wBelow c (unitW l) = (l.countP (fun s => decide (s ≤ c)) : ℕ) := by
  induction l with
  | nil => simp [unitW, wBelow]
  | cons a t ih =>
    simp only [unitW, List.map_cons, wBelow] at *
    rw [ih, List.countP_cons]
    by_cases h : a ≤ c
    · simp [h]; ring
    · simp [h]

/-- number of values strictly below `x` -/
def countLt (l : List ℚ) (x : ℚ) : ℕ := l.countP (fun s => decide (s < x))

theorem countLt_perm {l l' : List ℚ} (h : l.Perm l') (x : ℚ) : countLt l x = countLt l' x := h.countP_eq _

/-- number of values with at least `k` values strictly below them -/
def highRank (k : ℕ) (l : List ℚ) : ℕ := l.countP (fun x => decide (k ≤ countLt l x))

theorem highRank_sorted (l : List ℚ) (hs : l.Pairwise (· ≤ ·)) (k : ℕ) : highRank k l ≤ l.length - k := by
  induction l generalizing k with
  | nil => simp [highRank]
  | cons a r ih =>
    have hs' := List.pairwise_cons.mp hs
    cases k with
    | zero => simp [highRank]
    | succ k =>
      have ha : countLt (a :: r) a = 0 := by
        unfold countLt
        rw [List.countP_eq_zero]
        intro x hx
        rcases List.mem_cons.mp hx with rfl | hx
        · simp
        · have := hs'.1 x hx
          simp only [decide_eq_true_eq, not_lt]; exact this
      have hmono : r.countP (fun x => decide (k + 1 ≤ countLt (a :: r) x)) ≤ highRank k r := by
        unfold highRank
        apply List.countP_mono_left
        intro x _ hx
        simp only [decide_eq_true_eq] at hx ⊢
        have : countLt (a :: r) x ≤ 1 + countLt r x := by
          unfold countLt
          rw [List.countP_cons]
          split <;> omega
        omega
      have := ih hs'.2 k
      unfold highRank at *
      rw [List.countP_cons, ha]
      simp only [List.length_cons]
      have h0 : ¬ (k + 1 ≤ 0) := by omega
      simp only [h0, decide_false, Bool.false_eq_true, if_false]
      omega

theorem highRank_perm {l l' : List ℚ} (h : l.Perm l') (k : ℕ) : highRank k l = highRank k l' := by
  unfold highRank
  rw [h.countP_eq]
  apply List.countP_congr
  intro x _
  rw [countLt_perm h x]

/-- **at most `m − k` of `m` values have `k` or more values strictly below them** -/
theorem highRank_le (l : List ℚ) (k : ℕ) : highRank k l ≤ l.length - k := by
  rw [← highRank_perm (sortR_perm l) k, ← (sortR_perm l).length_eq]
  exact highRank_sorted _ (sortR_pairwise l) k


theorem map_getD_range (l : List ℚ) : (List.range l.length).map (fun i => l.getD i 0) = l := by
  apply List.ext_getElem
  · simp
  · intro i h1 h2
    simp [List.getD_eq_getElem?_getD, h2]

theorem countP_range_getD (l : List ℚ) (P : ℚ → Bool) :
    (List.range l.length).countP (fun i => P (l.getD i 0)) = l.countP P := by
  conv_rhs => rw [← map_getD_range l]
  rw [List.countP_map]; rfl

theorem qLevel_mul (α : ℚ) (n : ℕ) (hn : 0 < n) : qLevel α n * n = α * (n + 1) := by
  unfold qLevel
  have : (n : ℚ) ≠ 0 := by positivity
  field_simp

theorem uncovered_high_rank (l : List ℚ) (n : ℕ) (hl : l.length = n + 1) (hn : 0 < n) (α : ℚ) (h0 : 0 ≤ α)
    (h1 : qLevel α n < 1) (i : ℕ) (hi : i < n + 1) (hc : covered l (qLevel α n) i = false) :
    ⌊α * (n + 1)⌋₊ + 1 ≤ countLt l (l.getD i 0) := by
  have hlen : (l.eraseIdx i).length = n := by rw [List.length_eraseIdx]; simp [hl, hi]
  have hq0 : 0 ≤ qLevel α n := by unfold qLevel; positivity
  have hw : ∀ p ∈ unitW (l.eraseIdx i), 0 ≤ p.2 := by
    intro p hp; unfold unitW at hp; obtain ⟨s, _, rfl⟩ := List.mem_map.mp hp; simp
  obtain ⟨c, hcx⟩ := pop_exists (unitW (l.eraseIdx i)) (qLevel α n) hq0 h1 (by rw [wTot_unitW, hlen]; exact_mod_cast hn)
  have hcal := pop_calibrated _ hw _ _ hcx
  rw [wTot_unitW, wBelow_unitW, hlen, qLevel_mul α n hn] at hcal
  unfold covered looCorrection at hc
  rw [hcx] at hc
  simp only [decide_eq_false_iff_not, not_le] at hc
  have h2 : (l.eraseIdx i).countP (fun s => decide (s ≤ c)) ≤ countLt l (l.getD i 0) := by
    unfold countLt
    refine le_trans (List.countP_mono_left ?_) ((List.eraseIdx_sublist l i).countP_le)
    intro x _ hx
    simp only [decide_eq_true_eq] at hx ⊢
    exact lt_of_le_of_lt hx hc
  have h3 : α * (n + 1) < (countLt l (l.getD i 0) : ℕ) := lt_of_lt_of_le hcal (by exact_mod_cast h2)
  have := (Nat.floor_lt (by positivity)).mpr h3
  omega

/-- **counting core of split-conformal coverage.**  Take any `n + 1` conformity scores (the `n` calibration units and one
    further unit, in any order, ties allowed).  For each of them compute the correction from the *other* `n` with the corrected
    level `α (1 + 1/n)` and equal weights.  Then strictly more than `α (n + 1)` of the `n + 1` scores are at most "their"
    correction.  If the scores are exchangeable, the further unit is equally likely to be any of them, hence it is inside its
    widened interval with probability above `α` — the probabilistic step is the only part that is assumed, not proved. -/
theorem split_conformal_count (l : List ℚ) (n : ℕ) (hl : l.length = n + 1) (hn : 0 < n) (α : ℚ) (h0 : 0 ≤ α)
    (h1 : qLevel α n < 1) :
    α * (n + 1) < ((List.range (n + 1)).countP (covered l (qLevel α n)) : ℕ) := by
  set k := ⌊α * (n + 1)⌋₊ + 1 with hk
  have hbad : (List.range (n + 1)).countP (fun i => !covered l (qLevel α n) i) ≤ highRank k l := by
    unfold highRank
    rw [← countP_range_getD l, hl]
    apply List.countP_mono_left
    intro i hi hc
    have hi' : i < n + 1 := List.mem_range.mp hi
    simp only [Bool.not_eq_true'] at hc
    simpa using uncovered_high_rank l n hl hn α h0 h1 i hi' hc
  have hhr := highRank_le l k
  have hsum := List.length_eq_countP_add_countP (covered l (qLevel α n)) (l := List.range (n + 1))
  simp only [List.length_range] at hsum
  have hkn : k ≤ n := by
    have : α * (n + 1) < (n : ℕ) := by
      rw [← qLevel_mul α n hn]
      have : (0:ℚ) < n := by exact_mod_cast hn
      nlinarith
    have := (Nat.floor_lt (by positivity)).mpr this
    omega
  have hcov : k ≤ (List.range (n + 1)).countP (covered l (qLevel α n)) := by
    have e : (List.range (n + 1)).countP (fun a => decide ¬covered l (qLevel α n) a = true) =
        (List.range (n + 1)).countP (fun i => !covered l (qLevel α n) i) := by
      apply List.countP_congr; intro i _; simp
    rw [e] at hsum
    omega
  have : α * (n + 1) < (k : ℕ) := by rw [hk]; push_cast; exact Nat.lt_floor_add_one _
  exact lt_of_lt_of_le this (by exact_mod_cast hcov)

/-- non-vacuity: five scores with a tie, α = ½ (level 5/8 on four calibration units): three of the five are covered (> 5/2) -/
example : looCorrection [3, 1, 2, 2, 5] (qLevel (1/2) 4) 0 = some 2 := by decide +kernel
example : covered [3, 1, 2, 2, 5] (qLevel (1/2) 4) 0 = false := by decide +kernel
example : (List.range 5).countP (covered [3, 1, 2, 2, 5] (qLevel (1/2) 4)) = 3 := by decide +kernel

/-- **equal weights: the correction is an order statistic** — with equal positive weights the population correction is the
    score of rank `⌊q·n⌋ + 1` -/
theorem scan_equal_weights (w : ℚ) (hw : 0 < w) (N : ℚ) (q : ℚ) (l : List (ℚ × ℚ)) (hl : ∀ p ∈ l, p.2 = w)
    (k : ℕ) (hk : (k : ℤ) ≤ ⌊q * N⌋) (hq : 0 ≤ q * N) :
    scan (q * (N * w)) (k * w) l = (l[(⌊q * N⌋).toNat - k]?).map Prod.fst := by
  induction l generalizing k with
  | nil => simp [scan]
  | cons p t ih =>
    obtain ⟨s, w'⟩ := p
    have hw' : w' = w := hl (s, w') (by simp)
    subst hw'
    unfold scan
    have hfl : 0 ≤ ⌊q * N⌋ := Int.floor_nonneg.mpr hq
    by_cases h : q * (N * w') < k * w' + w'
    · rw [if_pos h]
      have : q * N < k + 1 := by
        have : q * N * w' < (k + 1) * w' := by nlinarith
        exact lt_of_mul_lt_mul_right this hw.le
      have : ⌊q * N⌋ < k + 1 := Int.floor_lt.mpr (by exact_mod_cast this)
      have : (⌊q * N⌋).toNat - k = 0 := by omega
      rw [this]; simp
    · rw [if_neg h]
      have : (k : ℚ) + 1 ≤ q * N := by
        have : (k + 1) * w' ≤ q * N * w' := by nlinarith
        exact le_of_mul_le_mul_right this hw
      have hk1 : ((k + 1 : ℕ) : ℤ) ≤ ⌊q * N⌋ := Int.le_floor.mpr (by push_cast; exact this)
      have := ih (fun p hp => hl p (List.mem_cons_of_mem _ hp)) (k + 1) hk1
      have e : (k : ℚ) * w' + w' = ((k + 1 : ℕ) : ℚ) * w' := by push_cast; ring
      rw [e, this]
      have : (⌊q * N⌋).toNat - k = ((⌊q * N⌋).toNat - (k + 1)) + 1 := by omega
      rw [this, List.getElem?_cons_succ]

theorem wTot_const (w : ℚ) (l : List (ℚ × ℚ)) (hl : ∀ p ∈ l, p.2 = w) : wTot l = l.length * w := by
  induction l with
  | nil => simp [wTot]
  | cons p t ih =>
    obtain ⟨s, w'⟩ := p
    have : w' = w := hl (s, w') (by simp)
    subst this
    simp only [wTot, List.length_cons]
    rw [ih (fun p hp => hl p (List.mem_cons_of_mem _ hp))]; push_cast; ring

/-- **equal weights: the correction is an order statistic.**  With equal positive weights on `n` calibration units the
    population correction at level `q` is the score of rank `⌊q·n⌋ + 1` (so, at the corrected level `α (1 + 1/n)`, the score of
    rank `⌊α (n + 1)⌋ + 1`, the textbook split-conformal quantile) -/
theorem equal_weights_rank (w : ℚ) (hw : 0 < w) (sw : List (ℚ × ℚ)) (hl : ∀ p ∈ sw, p.2 = w) (q : ℚ) (hq : 0 ≤ q) :
    popCorrection sw q = ((sortS sw)[(⌊q * sw.length⌋).toNat]?).map Prod.fst := by
  unfold popCorrection
  have hl' : ∀ p ∈ sortS sw, p.2 = w := fun p hp => hl p ((sortS_perm sw).mem_iff.mp hp)
  have h := scan_equal_weights w hw sw.length q (sortS sw) hl' 0
    (by simpa using Int.floor_nonneg.mpr (by positivity)) (by positivity)
  rw [wTot_const w sw hl]
  simpa using h

example : popCorrection [(3, 2), (1, 2), (2, 2), (2, 2)] (5/8) = some 2 ∧ (⌊(5/8 : ℚ) * 4⌋).toNat = 2 := by decide +kernel

end ElexModel.Conformal

/-! ### bridge: the source of this run (regenerated by the translator) against the model the theorems are about -/

namespace ElexModel.Conformal
open ElexModel

/-- conformity score as written in `get_unit_prediction_intervals` -/
theorem bridge_score (lb ub : ℚ) : Gen.C04.score lb ub = score lb ub := rfl

/-- the calibration bounds saved in the conformalization frame are `f_lo(x) − r` and `r − f_hi(x)`: with them, **being inside
    the widened interval is the same as having a conformity score at most the correction** — on the source's own formulas -/
theorem bridge_inside_iff (fitLo fitHi r c : ℚ) :
    (fitLo - c ≤ r ∧ r ≤ fitHi + c) ↔
      Gen.C04.score (Gen.C04.conf_lower_bound fitLo r) (Gen.C04.conf_upper_bound fitHi r) ≤ c :=
  inside_iff_score_le fitLo fitHi r c

theorem bridge_conf_columns : Gen.C04.conf_columns =
    ["conformalization_data['upper_bounds'] = conformalization_upper_bounds",
     "conformalization_data['lower_bounds'] = conformalization_lower_bounds"] := by decide

/-- the correction applied by the source (`robust` → the larger of the two) is the model's `correction` -/
theorem bridge_applied_correction (robust : Bool) (sw : List (ℚ × ℚ)) (q pc : ℚ) (h : popCorrection sw q = some pc) :
    correction robust sw q = some (Gen.C04.applied_correction robust (npQuantile (sw.map Prod.fst) q) pc) := by
  unfold correction Gen.C04.applied_correction
  rw [h]
  cases robust <;> rfl

/-- final unit bounds of the source = `finalLower / finalUpper` at the applied correction -/
theorem bridge_final_bounds (l u w part npq pc : ℚ) (robust : Bool) :
    Gen.C04.final_lower l u w part robust npq pc = (finalLower l (Gen.C04.applied_correction robust npq pc) w part : ℚ) ∧
    Gen.C04.final_upper l u w part robust npq pc = (finalUpper u (Gen.C04.applied_correction robust npq pc) w part : ℚ) :=
  ⟨rfl, rfl⟩

/-- both corrections are computed from the same scores at the same (corrected) level, on the conformalization frame that is
    returned -/
theorem bridge_correction_args :
    Gen.C04.quantile_args = ["scores", "q=correction_quantile"] ∧
    Gen.C04.population_correction_args = ["prediction_intervals.conformalization", "scores", "correction_quantile", "estimand"] ∧
    Gen.C04.conformalization_returned = ["prediction_intervals.conformalization"] := by decide

/-- shape of `_compute_population_correction`: weights normalised by their sum, sorted by score, cumulative sum, *strict*
    comparison with the level, minimum of the remaining scores — the five things `popCorrection` models -/
theorem bridge_population_correction_shape : Gen.C04.population_correction_shape =
    ["cumsum()", "min(population_correction.scores)", "query('percent > @correction_quantile')", "sort_values('scores')",
     "weights = conformalization_data[f'last_election_results_{estimand}'] / conformalization_data[f'last_election_results_{estimand}'].sum()"] := rfl

end ElexModel.Conformal
