"""helpers for the relational (pair-run) properties C10, C11, C12, C13: bit-exact comparison of result tables"""
import hashlib
import math
import struct

import numpy as np
import pandas as pd

KEYCOLS = ["postal_code", "district", "county_classification", "county_fips", "geographic_unit_fips"]


def fhex(x):
    if x is None:
        return "None"
    if isinstance(x, (float, np.floating)):
        if math.isnan(x):
            return "nan"
        return float(x).hex()
    if isinstance(x, (bool, np.bool_)):
        return str(bool(x))
    if isinstance(x, (int, np.integer)):
        return float(int(x)).hex()
    return str(x)


def keys_of(df):
    return [c for c in KEYCOLS if c in df.columns]


def rows_by_key(df):
    """key tuple -> {column: bit-exact repr}"""
    ks = keys_of(df)
    out = {}
    for r in df.to_dict(orient="records"):
        k = tuple(str(r[c]) for c in ks)
        out[k] = {c: fhex(v) for c, v in r.items() if c not in ks}
    return out


def digest(tables):
    h = hashlib.sha256()
    for name in sorted(tables):
        df = tables[name]
        h.update(name.encode())
        h.update(",".join(df.columns).encode())
        for r in df.itertuples(index=False):
            h.update("|".join(fhex(v) for v in r).encode())
    return h.hexdigest()


NOISE = {"cells": 0}


def _same(x, y, rtol):
    if x == y:
        return True
    if rtol and isinstance(x, str) and isinstance(y, str) and "0x" in x and "0x" in y:
        try:
            fx, fy = float.fromhex(x), float.fromhex(y)
        except ValueError:
            return False
        if abs(fx - fy) <= rtol * max(1.0, abs(fx), abs(fy)):
            NOISE["cells"] += 1
            return True
    return False


def diff_tables(a, b, ignore_rows=None, ignore_cols=(), rtol=0.0):
    """list of (table, key, column, a, b) where two runs differ, ignoring the given row predicates {table: fn(key)};
    rtol > 0: real-valued cells may differ by that relative amount (counted in NOISE) - used only where the lengths of the
    floating-point sums differ between the two runs by construction"""
    out = []
    for name in sorted(set(a) | set(b)):
        if name not in a or name not in b:
            out.append((name, None, "table missing", name in a, name in b))
            continue
        ra, rb = rows_by_key(a[name]), rows_by_key(b[name])
        skip = (ignore_rows or {}).get(name, lambda k: False)
        for k in sorted(set(ra) | set(rb)):
            if skip(k):
                continue
            if k not in ra or k not in rb:
                out.append((name, k, "row missing", k in ra, k in rb))
                continue
            for c in sorted(set(ra[k]) | set(rb[k])):
                if c in ignore_cols:
                    continue
                if not _same(ra[k].get(c), rb[k].get(c), rtol):
                    out.append((name, k, c, ra[k].get(c), rb[k].get(c)))
    return out


def value(df, key, col):
    ks = keys_of(df)
    m = np.ones(len(df), dtype=bool)
    for c, v in zip(ks, key):
        m &= (df[c].astype(str) == v).values
    sub = df[m]
    if sub.shape[0] != 1:
        return None
    return sub[col].iloc[0]
